"""C17 — highlight (UI) tokens are well-formed character spans."""
import re
from tools import common as C, wire
from tools.gen import lines as L

LEAN_MODULES = ["SCP.C17", "SCP.LexerUi"]
THEOREMS = ["SCP.C17." + t for t in """mem_charMapFrom nchars_new pos_le_nchars pos_boundary add_wf sort_wf sort_ordered update_inv step_ofLine
step_wf pipeline_ordered ordered_consecutive old_collision_witness""".split()] + ["SCP.LexerUi.lexer_highlight_wf"]
RULE = ("lines of the shared generators (arithmetic, money, percent, dates, durations, times with zones, units, variables over several "
        "lines, comments) with words from a curated alphabet inserted before / between / after tokens: 2-, 3-, 4-byte characters, characters "
        "whose case mapping changes their byte length (İ ß ŉ ǰ ΐ ﬁ ﬃ K Ω), combining marks, RTL currency symbols, lines matched by a rule registered through add_rule behind multi-byte characters, lines of more than 2^16 characters (implementation only: the model is not run on them), blanks other than U+0020 (U+00A0 U+2009 U+3000 U+202F U+2003) glued to numbers / operators / inside comments, Turkish words, in en and tr; "
        "oracle 1 (every line): 0 <= start < end <= number of characters, ordered by start, no overlap; oracle 2 (structured lines whose "
        "pieces are known): every number literal, operator character and comment has a token of its own kind covering exactly its characters; "
        "tie: the highlight requests of the model's tokenizers (from the raw text) equal the adds of the implementation's operation log; the implementation's operation log (hook, target verif_ui) of EVERY collection is replayed on the Lean model: final tokens and "
        "every byte->character translation must agree; non-trivial = line contains a multi-byte character; distinct = distinct texts")
ASSUMPTIONS = ["the theorems hold for arbitrary spans; which spans the tokenizers request is given by the lexer model (SC.lexFull), whose requests are compared with the implementation's operation log on every line of this run"]
TRUSTED = ["the hook log is complete (every mutation of UiTokenCollection goes through add / add_from_byte_range / sort / update_tokens)"]

ALPHA = ["ğüş", "çay", "İİİİ", "ß", "ŉ", "ǰ", "ΐ", "ﬁ", "ﬃ", "K", "Ω", "日本語", "😀", "𝒳y", "é", "é", "ạ̈", "﷼", "₺", "д", "ığdır", "İstanbul",
         "ÇOK", "naïve", "ʼn", "ẞ", "ǅ", "‏", "x̀y", "λόγος", "שלום", "ŉŉ", "İß"]
ASCII_WORDS = ["foo", "bar", "total", "note"]
OPS = ["+", "-", "*", "/", "(", ")"]
XBLANK = ["\u00a0", "\u2009", "\u3000", "\u202f", "\u2003"]


def noisy(rng, text):
    """insert words of the alphabet at token gaps of every line"""
    out = []
    for line in text.split("\n"):
        parts = line.split(" ")
        k = rng.random()
        if k < 0.35:
            parts.insert(0, rng.choice(ALPHA))
        if k > 0.25 and len(parts) > 1:
            parts.insert(rng.randint(1, len(parts)), rng.choice(ALPHA))
        if rng.random() < 0.3:
            parts.append(rng.choice(ALPHA))
        if rng.random() < 0.15:
            parts.append("# " + rng.choice(ALPHA) + " " + rng.choice(["may 5", "12", "EST", "$5"]))
        out.append(" ".join(parts))
    return "\n".join(out)


def structured(rng):
    """a line built from known pieces; returns (text, expected list of (start, end, kind) in characters)"""
    pieces = []
    n = rng.randint(2, 7)
    prev = None
    for _ in range(n):
        k = rng.random()
        if k < 0.4 and prev != "num":
            s = str(rng.randint(0, 99999)) if rng.random() < 0.7 else f"{rng.randint(0, 999)},{rng.randint(0, 99):02d}"
            pieces.append(("Number", s))
            prev = "num"
        elif k < 0.65 and prev != "op":
            pieces.append(("Operator", rng.choice(OPS)))
            prev = "op"
        elif k < 0.75:
            # a blank that is not U+0020 (2- and 3-byte): an operator character of its own
            pieces.append(("Operator", rng.choice(XBLANK)))
            prev = "xb"
        else:
            pieces.append((None, rng.choice(ALPHA + ASCII_WORDS)))
            prev = "word"
    text, exp = "", []
    for kind, s in pieces:
        if text:
            glue = (s in XBLANK or text[-1] in XBLANK) and rng.random() < 0.6
            text += "" if glue else " " * rng.choice([1, 1, 2])
        if kind:
            exp.append((len(text), len(text) + len(s), kind))
        text += s
    if rng.random() < 0.4:
        c = "# " + rng.choice(ALPHA) + rng.choice(["", " 12 + 5", " may", "\u00a0b", "\u3000 7"])
        text += " "
        exp.append((len(text), len(text) + len(c), "Comment"))
        text += c
    return text, exp


CASELEN = ["ı", "ıı", "ŉ", "ŉŉ", "K", "KK", "İ", "İİ", "ǰ", "ΐ", "ẞ", "ß", "ſ", "Ω"]
MONTHS = ["jan", "may", "march", "december", "oct"]
ZONES_ = ["EST", "CET", "UTC", "PST", "JST"]


def caselen_line(rng):
    """characters whose lower / upper case has another byte length, on both sides of a month or zone name: the spans found
    in the case-mapped copy must be translated back character by character"""
    pieces = [(None, rng.choice(CASELEN)) for _ in range(rng.randint(1, 3))]
    k = rng.random()
    if k < 0.5:
        pieces += [("Number", str(rng.randint(1, 28))), ("Month", rng.choice(MONTHS))]
        if rng.random() < 0.5:
            pieces.append(("Number", str(rng.randint(1990, 2030))))
    else:
        pieces += [("Number", str(rng.randint(1, 999999))), ("Symbol1", rng.choice(ZONES_))]
    pieces += [(None, rng.choice(CASELEN)) for _ in range(rng.randint(1, 3))]
    if rng.random() < 0.3:
        pieces += [("Number", str(rng.randint(1, 99))), ("Symbol1", rng.choice(ZONES_))]
    text, exp = "", []
    for kind, s_ in pieces:
        if text:
            text += " "
        if kind:
            exp.append((len(text), len(text) + len(s_), kind))
        text += s_
    return text, exp


def wf_errors(line, ui):
    n = len(line)
    errs = []
    prev_end = 0
    prev_start = -1
    for (s, e, k) in ui:
        if not (0 <= s < e <= n):
            errs.append(f"token ({s},{e},{k}) is not inside the {n} characters of the line")
        if s < prev_start:
            errs.append(f"token ({s},{e},{k}) is out of order")
        elif s < prev_end:
            errs.append(f"token ({s},{e},{k}) overlaps its predecessor ending at {prev_end}")
        prev_start, prev_end = s, max(prev_end, e)
    return errs


NEW = re.compile(r"^(\d+) new \[(.*)\]$")


def replay_requests(uilog):
    """group the hook log by collection: returns list of (line bytes, request ops string)"""
    colls, order = {}, []
    for l in uilog:
        m = NEW.match(l)
        if m:
            cid = m.group(1)
            b = bytes(int(x) for x in m.group(2).split(",")) if m.group(2).strip() else b""
            colls[cid] = [b, []]
            order.append(cid)
            continue
        p = l.split(" ")
        cid = p[0]
        if cid not in colls:
            continue
        if p[1] == "range":
            colls[cid][1].append(f"r,{p[2]},{p[3]}")
        elif p[1] == "add":
            colls[cid][1].append(f"a,{p[2]},{p[3]},{p[4]}")
        elif p[1] == "sort":
            colls[cid][1].append("s")
        elif p[1] == "update":
            colls[cid][1].append(f"u,{p[2]},{p[3]},{p[4]}")
    return [(colls[c][0], ";".join(colls[c][1])) for c in order]


def run(ctx, model_ok):
    rng = ctx.rng
    cases = []
    for _ in range(ctx.n(2500, 80000)):
        lang = rng.choice(["en", "en", "tr"])
        k = rng.random()
        if k < 0.12:
            text, exp = caselen_line(rng)
            cases.append({"lang": "en", "text": text, "exp": exp})
        elif k < 0.45:
            text, exp = structured(rng)
            cases.append({"lang": lang, "text": text, "exp": exp})
        elif k < 0.9:
            base = L.text(rng, max_lines=3) if rng.random() < 0.4 else L.value_line(rng)
            cases.append({"lang": lang, "text": noisy(rng, base.replace("\r\n", "\n")), "exp": None})
        else:
            cases.append({"lang": lang, "text": "".join(rng.choice(ALPHA + [" ", "1", "+", "#", "may", "EST", "12:30", "%", "$"]) for _ in range(rng.randint(1, 12))), "exp": None})
    # lines longer than 2^16 characters (a long run of blanks or a long multi-byte note in front of the calculation): positions
    # are character counts of any size
    for pad in ([" " * 65600, "é" * 33000 + " " + "ğ" * 33000 + " "] if ctx.quick() else [" " * 65600, "é" * 33000 + " " + "ğ" * 33000 + " ", "x " * 40000, "日" * 70000 + " "]):
        a_, b_ = rng.randint(10, 99), rng.randint(1, 9)
        text = f"{pad}{a_} + {b_}"
        n0 = len(pad)
        cases.append({"lang": "en", "text": text, "exp": [(n0, n0 + 2, "Number"), (n0 + 3, n0 + 4, "Operator"), (n0 + 5, n0 + 6, "Number")], "long": True})
    # a rule registered through add_rule matches behind multi-byte characters: the highlight of the rewritten span is merged by
    # byte offsets (update_tokens), all positions reported are still character positions
    for _ in range(ctx.n(60, 1500)):
        lang = rng.choice(["en", "tr"])
        pre = rng.choice(["ğğğ", "über", "ığdır", "İİ", "日本", "😀😀", "ß", "çok güzel", ""])
        n_, coin = rng.randint(1, 99), rng.choice(["btc", "eth", "şey"])
        tail = rng.choice(["", " + 2", " * 3", " # ğ"])
        text = (pre + " " if pre else "") + f"{n_} {coin}{tail}"
        n0 = len(pre) + 1 if pre else 0
        exp = [(n0, n0 + len(str(n_)), "Number")] if not tail.startswith(" #") or True else []
        cases.append({"lang": lang, "text": text, "exp": None, "rule": {"op": "rule_add", "lang": lang, "name": "coinrule", "kind": "const",
                                                                           "patterns": ["{NUMBER:count} {TEXT:coin}"], "v": 42}})
    ops_all, pos_of = [], []
    for c in cases:
        if c.get("rule"):
            ops_all.append(c["rule"])
        pos_of.append(len(ops_all))
        ops_all.append({"op": "exec", "lang": c["lang"], "text": c["text"], "uilog": not c.get("long")})
        if c.get("rule"):
            ops_all.append({"op": "rule_del", "lang": c["lang"], "name": "coinrule"})
    res_all = C.run_impl(ops_all, timeout_ms=60000)
    res = [res_all[i] for i in pos_of]
    replay = []   # (case index, line index, bytes, ops, impl tokens)
    for ci, (c, r) in enumerate(zip(cases, res)):
        ops = ([c["rule"]] if c.get("rule") else []) + [{"op": "exec", "lang": c["lang"], "text": c["text"]}] + \
            ([{"op": "rule_del", "lang": c["lang"], "name": "coinrule"}] if c.get("rule") else [])
        lines = wire.split_lines(c["text"])
        multibyte = any(ord(ch) > 127 for ch in c["text"])
        ctx.seen(c["text"], multibyte)
        ctx.count("structured" if c["exp"] is not None else "noisy")
        if "lines" not in r:
            ctx.oracle_fail({"class": "abnormal", "what": "no result", "ops": ops, "impl": r})
            continue
        groups = replay_requests(r.get("uilog", []))
        gi = 0
        for li, (line, l) in enumerate(zip(lines, r["lines"])):
            ui = [tuple(t) for t in l["ui"]] if l else []
            errs = wf_errors(line, ui)
            if errs:
                ctx.oracle_fail({"class": "wf", "what": "; ".join(errs[:3]), "ops": ops, "line": line, "ui": ui})
            if c["exp"] is not None and li == 0 and l is not None:
                for (s, e, k) in c["exp"]:
                    if (s, e, k) not in ui:
                        ctx.oracle_fail({"class": "kind:" + k, "what": f"{k} {line[s:e]!r} at characters [{s},{e}) has no token of its own kind covering exactly it",
                                         "ops": ops, "line": line, "ui": ui})
                        break
            # the collection of this line in the hook log
            lb = line.encode("utf-8")
            while gi < len(groups) and groups[gi][0] != lb:
                gi += 1
            if l is not None and gi < len(groups):
                replay.append((ci, li, lb, groups[gi][1], ui))
                gi += 1
            elif l is not None and line.strip():
                ctx.count("no-collection-in-log")
        if len(ctx.samples) < 8 and multibyte and rng.random() < 0.01:
            ctx.sample({"text": c["text"], "ui": [l["ui"] if l else None for l in r["lines"]]})
    if model_ok:
        # the model's tokenizers on the same multi-byte lines (token spans are byte offsets; case-mapped copies are translated back)
        lt = []
        for c in cases[:ctx.n(1500, 30000)]:
            if c.get("long"):
                continue
            for ln in wire.split_lines(c["text"])[:3]:
                lt.append(([], c["lang"], ln))
        wire.lex_tie(ctx, lt)
    if model_ok and replay:
        # the highlight requests of the model's own tokenizers against the adds of the implementation's operation log
        sub = replay if not ctx.quick() else replay[:3000]
        ans = C.run_model(["reset"] + [f"lexui\t{cases[ci]['lang']}\t{b.hex()}" for (ci, _, b, _, _) in sub])[1:]
        for (ci, li, b, ops, ui), a in zip(sub, ans):
            ctx.count("lexui:lines")
            if not a.startswith("ui"):
                ctx.count("lexui:outside-model")
                continue
            adds = ops.split(";s")[0] if ";s" in ops or ops == "s" else ops
            adds = "" if adds == "s" else adds
            got = a[3:] if a.startswith("ui\t") else ""
            if adds != got:
                ctx.disagree({"observable": "highlight requests of the tokenizers", "text": cases[ci]["text"], "line": li, "impl": adds, "model": got})
            else:
                ctx.count("lexui:agree")
                ctx.traces_validated += 1
    if model_ok and replay:
        sub = replay if not ctx.quick() else replay[:6000]
        ans = C.run_model([f"ui\t{b.hex()}\t{ops}" for (_, _, b, ops, _) in sub])
        for (ci, li, b, ops, ui), a in zip(sub, ans):
            f = a.split("\t")
            got = [tuple(int(x) if i < 2 else x for i, x in enumerate(t.split(","))) for t in f[1].split(" ")] if len(f) > 1 and f[1] else []
            ctx.traces_validated += 1
            if f[0] != "0" or got != ui:
                ctx.disagree({"observable": "ui tokens after replaying the operation log", "text": cases[ci]["text"], "line": li,
                              "ops": ops, "model": a, "impl": ui})
        ctx.dist["replayed-collections"] = len(sub)


def replay(ctx, data, model_ok):
    for f in data.get("failures", []):
        res = C.run_impl(f["ops"])
        ctx.seen(C.json.dumps(f["ops"]), True)
        ctx.sample({"ops": f["ops"], "impl": res})
        print("replayed:", C.json.dumps(f["ops"], ensure_ascii=False)[:400], "->",
              C.json.dumps([[l["ui"] if l else None for l in r["lines"]] for r in res if "lines" in r], ensure_ascii=False)[:400])
    run(ctx, model_ok)
