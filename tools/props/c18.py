"""C18 — custom rules and user-defined unit families: registration, effect, removal."""
import struct
from fractions import Fraction
from tools import common as C, wire, oracle as O

LEAN_MODULES = ["SCP.C18", "SCP.C18Api", "SCP.C18Date"]
THEOREMS = ["SCP.C18." + t for t in """addRule_false_iff addRule_false_noop deleteRule_false_iff deleteRule_false_noop lang_setLang step_rules
run_rules run_frame applyOps_base applyOps_registrations history_eq_survivors tryPats_decline decline_noop api_effect echo_binds_by_name
const_returns addDynamicType_false_iff addDynamicType_false_noop addDynamicTypeItem_false_iff addDynamicTypeItem_false_noop
user_family_converts""".split()] + ["SCP.C18Api." + t for t in """addRuleText_unknown_language addRuleText_known_language
addRuleText_false_noop addRuleText_false_iff addRuleText_other_languages addDynamicTypeItemText_unknown_family addDynamicTypeItemText_known_family
addDynamicTypeItemText_false_noop""".split()] + ["SCP.C18Date." + t for t in """setDateRule_rules setDateRule_api setDateRule_named
setDateRule_add_comm setDateRule_idem setDateRule_frame deleteRule_keeps_internal addRule_keeps_internal""".split()]
RULE = ("histories of 5-60 calls: add_rule (5 canned behaviours: constant, decline, echo a field, sum of the number fields, coin; 1-2 patterns "
        "from a pool incl. overlapping ones; languages en, tr and an unknown one; the same name twice; the same patterns under two names), "
        "delete_rule (existing / deleted / unknown names, unknown language), add_dynamic_type (new / duplicate), add_dynamic_type_item (chains "
        "of 1-5 items, index 0, gaps, duplicate indices, unknown family), interleaved with evaluations of matching and non-matching lines; "
        "oracles: (1) every return value against the specification; (2) at every checkpoint the probe lines evaluate exactly as on a FRESH "
        "calculator on which only the surviving non-declining rules and the accepted families were registered in the same order; (3) constant / "
        "echo rules produce their token with fields bound by name; two rules with a match each are both applied in every registration order; rules registered for tr / en whose patterns hold a word-group field or an operator word of one language: a line spelled like the pattern is rewritten, a line with the other language's group word is as without the rule (also as histories on the model); (4) user families convert by the exact rational factor of their chain; tie: "
        "the whole history is replayed on the Lean model FROM ITS TEXTS — the model tokenises the patterns itself (rules in their language, unit items in en: SC.Api) and lexes every line (return values and every line result); non-trivial = history containing a deletion or a "
        "rejected call; distinct = distinct histories")
ASSUMPTIONS = ["rule behaviours are the six canned RuleTrait implementations (constant, decline, echo a field, sum, money, accept-only-a-given-word) shared by the harness and the model (ApiKind)",
               "patterns whose own output matches them again (non-terminating rewriting) are not generated"]
TRUSTED = []

POOL = [  # (pattern, matching line per language or None, fields)
    ("{NUMBER:a} foo {NUMBER:b}", "3 foo 4", ["a", "b"]),
    ("{NUMBER:a} foo", "7 foo", ["a"]),
    ("bar {TEXT:t}", "bar hello", ["t"]),
    ("{PERCENT:p} baz", "10% baz", ["p"]),
    ("qux", "qux", []),
    ("{MONEY:m} zap", "$5 zap", ["m"]),
    ("{NUMBER:a} plus {NUMBER:b} plus {NUMBER:c}", "1 plus 2 plus 3", ["a", "b", "c"]),
    ("zip {NUMBER:a}", "zip 9", ["a"]),
    ("{NUMBER:n} {TEXT:w}", "10 btc", ["n", "w"]),
    ("{NUMBER:n} voucher", "5 voucher", ["n"]),
    ("{TEXT:w} {NUMBER:n}", "btc 10", ["w", "n"]),
]
OTHER_LINES = ["1 + 2", "10 usd to eur", "5 km to m", "3 foo", "foo", "bar", "12 baz", "2 days", "x = 5", "zip zip 2", "8 foo 2 + 1", "(7 foo) * 2",
               "5 voucher 10 btc", "7 foo 10 btc", "3 eth 10 btc", "10 btc 5 voucher", "2 btc 3 btc", "10% of 200", "5 march 2020", "200 on 10%"]
# names of built-in rules (config.json keys) are ordinary names for the API: they address registered rules only
NAMES = ["r1", "r2", "r3", "dup", "same", "number_of", "convert_money", "small_date"]


def uw(name, idx):
    """unit word of item idx of a user family (letters only)"""
    return "zz" + {"1": "p", "2": "q", "3": "r"}[name[-1]] + "abcde"[idx]


def bits(x):
    return struct.pack(">d", float(x)).hex()


def gen_history(rng, n):
    H = []
    fams = {}
    for _ in range(n):
        k = rng.random()
        if k < 0.32:
            pats = rng.sample(POOL, rng.choice([1, 1, 2]))
            kind = rng.choice(["const", "const", "decline", "echo", "sum", "coin", "when", "when"])
            op = {"op": "rule_add", "lang": rng.choice(["en", "en", "en", "tr", "xx"]), "name": rng.choice(NAMES), "kind": kind,
                  "patterns": [p[0] for p in pats]}
            if kind in ("const", "coin"):
                op["v"] = rng.choice([1, 2, 42, 0.5, 1000, -3])
            if kind == "coin":
                op["cur"] = rng.choice(["usd", "eur", "zzz"])
            if kind == "echo":
                op["field"] = rng.choice(sum((p[2] for p in pats), []) + ["zz"])
            if kind == "when":
                # accepts a match only when the TEXT field is a given word: declines one match of a line and accepts another
                if rng.random() < 0.8:
                    pats = [POOL[8]] + ([rng.choice(POOL)] if rng.random() < 0.3 else [])
                    op["patterns"] = [p[0] for p in pats]
                op["field"] = rng.choice(["w", "w", "t"])
                op["word"] = rng.choice(["btc", "btc", "eth", "hello", "foo"])
                op["v"] = rng.choice([1000, 42, 0.5])
            H.append(op)
        elif k < 0.36:
            # set_date_rule with the language's own configured patterns: a configuration call between the registrations that
            # must leave them alone (it rebuilds the small_date rule inside the same rule list)
            lang = rng.choice(["en", "tr", "en", "xx"])
            H.append({"op": "date_rule", "lang": lang, "patterns": DATE_PATTERNS.get(lang, ["{NUMBER:day} {MONTH:month}"])})
        elif k < 0.47:
            H.append({"op": "rule_del", "lang": rng.choice(["en", "en", "tr", "xx"]), "name": rng.choice(NAMES + ["nope"])})
        elif k < 0.53:
            name = rng.choice(["fam1", "fam2", "metric-length"])
            H.append({"op": "dtype_add", "name": name})
        elif k < 0.68:
            name = rng.choice(["fam1", "fam2", "fam3"])
            idx = rng.choice([0, 1, 2, 3, 4, 2])
            w = uw(name, idx)
            H.append({"op": "dtype_item", "name": name, "index": idx, "format": "{value} " + w, "parse": ["{NUMBER:value} {TEXT:type:" + w + "}"],
                      "up": "{value} / " + str(rng.choice([10, 4, 2.5])), "down": "{value} * " + str(rng.choice([10, 4, 2.5])), "names": [w]})
        else:
            line = rng.choice([p[1] for p in POOL] + OTHER_LINES + ["4 zzpb to zzpd", "4 zzpc to zzpa", "2 zzqb + 3 zzqc", "5 zzpa to zzpb", "1 zzpd to zzpc"])
            H.append({"op": "exec", "lang": rng.choice(["en", "en", "tr"]), "text": line})
    return H


def _date_patterns():
    from tools import gen_config
    d = dict(gen_config.anchors()[2])
    d.pop("__first__", None)
    return d


DATE_PATTERNS = _date_patterns()


def curated_histories(rng):
    """two rules and a line with two matches: the rule registered first is offered a match it declines, the other rule rewrites
    those words, and in the next pass the first rule has a match it accepts; in both registration orders, with deletions and
    re-registrations in between"""
    out = []
    for word, v in (("btc", 1000), ("eth", 42)):
        when = {"op": "rule_add", "lang": "en", "name": "r1", "kind": "when", "patterns": ["{NUMBER:n} {TEXT:w}"], "field": "w", "word": word, "v": v}
        for other in ({"op": "rule_add", "lang": "en", "name": "r2", "kind": "coin", "patterns": ["{NUMBER:n} voucher"], "v": 100, "cur": "usd"},
                      {"op": "rule_add", "lang": "en", "name": "r2", "kind": "echo", "patterns": ["bar {TEXT:t}"], "field": "t"},
                      {"op": "rule_add", "lang": "en", "name": "r2", "kind": "const", "patterns": ["{NUMBER:n} voucher"], "v": 7}):
            lines = [f"5 voucher 10 {word}", f"10 {word} 5 voucher", f"3 foo 10 {word}", f"bar hello 2 {word}", f"1 zzz 2 yyy 3 {word}", f"2 {word} 3 {word}"]
            ex = [{"op": "exec", "lang": "en", "text": t} for t in lines]
            dele = lambda n: {"op": "rule_del", "lang": "en", "name": n}
            out.append([when, other] + ex)
            out.append([other, when] + ex)
            out.append([when, other, dele("r1"), when] + ex)
            two = dict(when, patterns=["{TEXT:w} {NUMBER:n}", "{NUMBER:n} {TEXT:w}"], name="r3")
            out.append([two, other] + [{"op": "exec", "lang": "en", "text": t} for t in (f"pack 3 {word}", f"pack 2 {word} + 1", f"{word} 7 pack", f"5 voucher 1 {word}")])
            out.append([when, other] + ex[:2] + [dele("r2")] + ex + [other] + ex)
            for lang in ("en", "tr"):
                dr = {"op": "date_rule", "lang": lang, "patterns": DATE_PATTERNS[lang]}
                out.append([when, other, dr] + ex + [dele("r1")] + ex[:2])
                out.append([when, dr, other] + ex + [{"op": "exec", "lang": "en", "text": "5 march 2020"}])
    return out


PROBES = [(l, p[1]) for p in POOL for l in ("en", "tr")] + [("en", x) for x in OTHER_LINES] + \
         [("en", "4 zzpb to zzpd"), ("en", "4 zzpc to zzpa"), ("en", "2 zzqb + 3 zzqc"), ("en", "5 zzpa to zzpb"), ("en", "3 zzpe to zzpc")]


def spec_state():
    return {"rules": {"en": [], "tr": []}, "fams": {}, "cfg_fams": None}


def spec_step(st, op, builtin_fams):
    """expected return value (None for exec) and state update"""
    o = op["op"]
    if o == "rule_add":
        if op["lang"] not in st["rules"]:
            return False
        st["rules"][op["lang"]].append(op)
        return True
    if o == "rule_del":
        if op["lang"] not in st["rules"]:
            return False
        rs = st["rules"][op["lang"]]
        for i, r in enumerate(rs):
            if r["name"] == op["name"]:
                del rs[i]
                return True
        return False
    if o == "dtype_add":
        if op["name"] in st["fams"] or op["name"] in builtin_fams:
            return False
        st["fams"][op["name"]] = {}
        st.setdefault("fam_order", []).append(op)
        return True
    if o == "dtype_item":
        if op["name"] not in st["fams"] or op["index"] in st["fams"][op["name"]]:
            return False
        st["fams"][op["name"]][op["index"]] = op
        st.setdefault("fam_order", []).append(op)
        return True
    return None


def survivors_ops(st):
    ops = list(st.get("fam_order", []))
    # registrations happen per language in their order; the global order of the survivors is kept per language
    for lang in ("en", "tr"):
        ops += [r for r in st["rules"][lang] if r["kind"] != "decline"]
    return ops


def canon(r):
    if "lines" not in r:
        return ("abnormal", C.json.dumps(r)[:100])
    l = r["lines"][0] if r["lines"] else None
    return wire.impl_line_canon(l, with_tokens=False)[:3]


def model_requests(H, lexed=None):
    """the history as requests to the model driver: registrations from the pattern TEXTS (the model tokenises them itself, the
    patterns of a rule in the rule's language — SC.Api), evaluations from the line texts (model lexer, then the evaluation layers)"""
    req = []
    idx = []
    for i, op in enumerate(H):
        o = op["op"]
        if o == "rule_add":
            a1 = bits(op["v"]) if op["kind"] in ("const", "coin", "when") else (wire.hx(op["field"]) if op["kind"] == "echo" else "-")
            a2 = (wire.hx(op["field"]) + ":" + wire.hx(op["word"])) if op["kind"] == "when" else op.get("cur", "-")
            req.append("\t".join(["rule_add_text", op["lang"], wire.hx(op["name"]), op["kind"], a1, a2, "|".join(wire.hx(p) for p in op["patterns"])]))
        elif o == "rule_del":
            req.append("\t".join(["rule_del", op["lang"], wire.hx(op["name"])]))
        elif o == "date_rule":
            req.append("\t".join(["date_rule_text", op["lang"], "|".join(wire.hx(p) for p in op["patterns"])]))
        elif o == "dtype_add":
            req.append("dtype_add\t" + wire.hx(op["name"]))
        elif o == "dtype_item":
            req.append("\t".join(["dtype_item_text", wire.hx(op["name"]), str(op["index"]), wire.hx(op["format"]), wire.hx(op["up"]), wire.hx(op["down"]),
                                  ".".join(wire.hx(n) for n in op["names"]), "-", "|".join(wire.hx(p) for p in op["parse"])]))
        else:
            req.append("newvars")
            idx.append(None)
            req.append("text\t" + op["lang"] + "\t" + wire.hx(op["text"]))
        idx.append(i)
    return req, idx


def run(ctx, model_ok):
    rng = ctx.rng
    cfg = C.json.load(open(C.REPO + "/src/json/config.json", encoding="utf-8"))
    builtin = {f["name"] for f in cfg["types"]}
    two_rule_effects(ctx)
    multi_pattern_effects(ctx)
    language_pattern_effects(ctx)
    many_matches_effects(ctx)
    hist = curated_histories(rng) + language_histories() + [gen_history(rng, rng.randint(5, 60)) for _ in range(ctx.n(120, 2500))]
    now = C.run_impl([{"op": "now"}])[0]
    for hi, H in enumerate(hist):
        # --- implementation: the history with checkpoints -----------------------------------------
        ops = [{"op": "reset"}]
        layout = []
        cps = sorted(set([len(H)] + [rng.randint(1, len(H)) for _ in range(2)]))
        for i, op in enumerate(H):
            ops.append(op)
            layout.append(len(ops) - 1)
            if i + 1 in cps:
                for (l, t) in PROBES:
                    ops.append({"op": "exec", "lang": l, "text": t})
        res = C.run_impl(ops)
        st = spec_state()
        nontrivial = False
        pos = 1
        snapshots = []
        for i, op in enumerate(H):
            r = res[layout[i]]
            want = spec_step(st, op, builtin)
            rops = [{"op": "reset"}] + H[:i + 1]
            if want is not None:
                if r.get("ret") != want:
                    ctx.oracle_fail({"class": "return:" + op["op"], "what": f"{op['op']} returned {r.get('ret', r)}, the specification says {want}", "ops": rops})
                if want is False or op["op"] == "rule_del":
                    nontrivial = True
            else:
                # effect clause for lines that match exactly one const / echo rule is covered by the survivors oracle and the model
                pass
            if i + 1 in cps:
                base = layout[i] + 1
                probe = [canon(x) for x in res[base:base + len(PROBES)]]
                snapshots.append((i + 1, probe, survivors_ops(st)))
        ctx.seen(hi, nontrivial)
        ctx.count("history-length", len(H))
        ctx.count("histories")
        # --- fresh calculators with only the survivors ------------------------------------------------
        for (upto, probe, surv) in snapshots:
            ops2 = [{"op": "reset"}] + surv + [{"op": "exec", "lang": l, "text": t} for (l, t) in PROBES]
            r2 = C.run_impl(ops2)
            probe2 = [canon(x) for x in r2[1 + len(surv):]]
            ctx.count("checkpoints")
            if probe != probe2:
                j = next(k for k in range(len(PROBES)) if probe[k] != probe2[k])
                ctx.oracle_fail({"class": "survivors", "what": f"after {upto} calls the line {PROBES[j]} evaluates to {probe[j]}, on a fresh calculator with only the survivors to {probe2[j]}",
                                 "ops": [{"op": "reset"}] + H[:upto] + [{"op": "exec", "lang": PROBES[j][0], "text": PROBES[j][1]}], "fresh_ops": ops2[:1 + len(surv)]})
        # --- effect and unit-chain oracles on the final state -----------------------------------------
        fams = st["fams"]
        for name, items in fams.items():
            idxs = sorted(items)
            for a in idxs:
                for b in idxs:
                    if a == b or any(k not in items for k in range(min(a, b), max(a, b) + 1)):
                        continue
                    f = Fraction(1)
                    if a < b:
                        for k in range(a, b):
                            f *= mult(items[k]["up"])
                    else:
                        for k in range(a, b, -1):
                            f *= mult(items[k]["down"])
                    wa, wb = items[a]["names"][0], items[b]["names"][0]
                    r = C.run_impl([{"op": "reset"}] + survivors_ops(st) + [{"op": "exec", "lang": "en", "text": f"8 {wa} to {wb}"}])[-1]
                    v = r["lines"][0].get("ok") if "lines" in r and r["lines"][0] else None
                    ctx.count("unit-chain-pairs")
                    if v is None or v.get("t") != "DY" or v["index"] != b or not O.close(O.f64(v["v"]), 8 * f, scale=float(8 * f)):
                        ctx.oracle_fail({"class": "user-family", "what": f"8 {wa} to {wb}: the declared chain gives {float(8 * f)}, evaluated to {v}",
                                         "ops": [{"op": "reset"}] + survivors_ops(st) + [{"op": "exec", "lang": "en", "text": f"8 {wa} to {wb}"}]})
        # --- tie: the history on the Lean model ------------------------------------------------------
        if model_ok and hi < ctx.n(120, 1200):
            req, idx = model_requests(H)
            ans = C.run_model([f"now\t{now['secs']}", "reset"] + req)[2:]
            for a, i in zip(ans, idx):
                if i is None:
                    continue
                op = H[i]
                r = res[layout[i]]
                ctx.traces_validated += 1
                if op["op"] == "exec":
                    ml = wire.model_line_canon(a)
                    il = canon(r)
                    if ml[0] == "unsupported":
                        ctx.count("model-unsupported")
                        break
                    if il[0] != ml[0] or (il[0] == "ok" and (il[1] != ml[1] or il[2] != ml[2])):
                        ctx.disagree({"observable": "line result in a history", "history": H[:i + 1], "impl": il, "model": ml[:3]})
                        break
                else:
                    if a == "unsupported" or a == "bad-op":
                        ctx.count("model-unsupported")
                        break
                    if (a == "1") != bool(r.get("ret")):
                        ctx.disagree({"observable": "return value", "history": H[:i + 1], "impl": r, "model": a})
                        break
        if len(ctx.samples) < 6 and nontrivial and rng.random() < 0.1:
            ctx.sample({"history": [C.json.dumps(o, ensure_ascii=False)[:120] for o in H[:8]], "length": len(H)})


def two_rule_effects(ctx):
    """effect of two registered rules on a line with a match for each: every match of a registered rule is rewritten, whichever rule
    was registered first and whatever was deleted and registered again before (the words of the other rule are not touched)"""
    for word, v in (("btc", 1000), ("eth", 42)):
        when = {"op": "rule_add", "lang": "en", "name": "r1", "kind": "when", "patterns": ["{NUMBER:n} {TEXT:w}"], "field": "w", "word": word, "v": v}
        coin = {"op": "rule_add", "lang": "en", "name": "r2", "kind": "coin", "patterns": ["{NUMBER:n} voucher"], "v": 100, "cur": "usd"}
        dele = lambda n: {"op": "rule_del", "lang": "en", "name": n}
        for pre in ([when, coin], [coin, when], [when, coin, dele("r1"), when], [coin, when, dele("r2"), coin], [when, coin, dele("r2"), dele("r1"), coin, when]):
            for text, want in ((f"5 voucher 10 {word}", ("M", 100.0 + v, "USD")), (f"7 {word}", ("N", float(v))), ("9 voucher", ("M", 100.0, "USD")),
                               (f"5 voucher + 10 {word}", ("M", 100.0 + v, "USD")), (f"(5 voucher) 10 {word}", ("M", 100.0 + v, "USD"))):
                ops = [{"op": "reset"}] + pre + [{"op": "exec", "lang": "en", "text": text}]
                r = C.run_impl(ops)[-1]
                l = r["lines"][0] if "lines" in r and r["lines"] else None
                val = l.get("ok") if l and "ok" in l else None
                got = None if val is None else ((val["t"], O.f64(val["v"]), val["cur"]) if val["t"] == "M" else (val["t"], O.f64(val["v"])) if val["t"] == "N" else (val["t"],))
                ctx.count("two-rule-effects")
                ctx.seen(("two-rule", C.json.dumps(pre), text), True)
                if got != want:
                    ctx.oracle_fail({"class": "effect:two-rules", "what": f"with both rules registered '{text}' evaluates to {got}, every match rewritten gives {want}", "ops": ops + [{"op": "reset"}]})


def multi_pattern_effects(ctx):
    """a rule with several patterns: when the match of an earlier pattern is declined, the later patterns are still tried"""
    for word, v in (("btc", 1000), ("eth", 42)):
        for pats in (["{TEXT:w} {NUMBER:n}", "{NUMBER:n} {TEXT:w}"], ["{NUMBER:n} {TEXT:w}", "{TEXT:w} {NUMBER:n}"]):
            rule = {"op": "rule_add", "lang": "en", "name": "r1", "kind": "when", "patterns": pats, "field": "w", "word": word, "v": v}
            for text, want in ((f"pack 3 {word}", float(v)), (f"pack 2 {word} + 1", float(v) + 1), (f"{word} 7", float(v)), (f"4 {word}", float(v)), (f"{word} 3 pack", float(v))):
                ops = [{"op": "reset"}, rule, {"op": "exec", "lang": "en", "text": text}]
                r = C.run_impl(ops + [{"op": "reset"}])[2]
                l = r["lines"][0] if "lines" in r and r["lines"] else None
                val = l.get("ok") if l and "ok" in l else None
                got = O.f64(val["v"]) if val is not None and val.get("t") == "N" else None
                ctx.count("multi-pattern-effects")
                ctx.seen(("multi-pattern", C.json.dumps(pats), text), True)
                if got != want:
                    ctx.oracle_fail({"class": "effect:multi-pattern", "what": f"rule with patterns {pats} accepting only '{word}': '{text}' evaluates to {got if val is None or got is not None else val}, expected {want}",
                                     "ops": ops + [{"op": "reset"}]})


def many_matches_effects(ctx):
    """EVERY line matching: a long line with many matches of one rule (each pass of the rewrite loop applies a rule once) and of two
    rules; every one of them is rewritten, however many there are"""
    coin = {"op": "rule_add", "lang": "en", "name": "r1", "kind": "when", "patterns": ["{NUMBER:n} {TEXT:w}"], "field": "w", "word": "btc", "v": 1000}
    vou = {"op": "rule_add", "lang": "en", "name": "r2", "kind": "const", "patterns": ["{NUMBER:n} voucher"], "v": 7}
    for n in (2, 15, 16, 17, 18, 31, 32, 33, 40, 64, 65, 100):
        for pre, term, each in (([coin], ["1 btc"], [1000]), ([coin, vou], ["1 btc", "3 voucher"], [1000, 7]), ([vou, coin], ["2 voucher", "5 btc"], [7, 1000])):
            terms = [term[i % len(term)] for i in range(n)]
            want = float(sum(each[i % len(each)] for i in range(n)))
            text = " + ".join(terms)
            ops = [{"op": "reset"}] + pre + [{"op": "exec", "lang": "en", "text": text}]
            r = C.run_impl(ops + [{"op": "reset"}])[len(ops) - 1]
            l = r["lines"][0] if "lines" in r and r["lines"] else None
            val = l.get("ok") if l and "ok" in l else None
            got = O.f64(val["v"]) if val is not None and val.get("t") == "N" else None
            ctx.count("many-matches-effects")
            ctx.seen(("many-matches", n, C.json.dumps(pre)), True)
            if got != want:
                ctx.oracle_fail({"class": "effect:many-matches", "what": f"a line with {n} matches ('{text[:60]}...') evaluates to {got if got is not None else val}, every match rewritten gives {want}",
                                 "ops": ops + [{"op": "reset"}]})


# patterns with a language-dependent element (a word group, an operator word of one language) and a line spelled like the pattern
LANG_PATTERNS = [
    ("tr", "{GROUP:unit:hour_group} basi {NUMBER:rate}", "saat basi 50", "hour basi 50"),
    ("tr", "{NUMBER:a} kere {NUMBER:b}", "3 kere 4", None),
    ("tr", "{NUMBER:a} çarpı {NUMBER:b}", "3 çarpı 4", None),
    ("tr", "topla {NUMBER:n}", "topla 5", None),
    ("tr", "sum {NUMBER:n}", "sum 5", None),
    ("tr", "{NUMBER:a} times {NUMBER:b}", "3 times 4", None),
    ("tr", "{GROUP:w:week_group} no {NUMBER:n}", "hafta no 7", "week no 7"),
    ("en", "{GROUP:unit:hour_group} rate {NUMBER:rate}", "hours rate 5", "saat rate 5"),
    ("en", "{NUMBER:a} times {NUMBER:b}", "3 times 4", None),
    ("en", "{NUMBER:a} kere {NUMBER:b}", "3 kere 4", None),
    ("en", "topla {NUMBER:n}", "topla 5", None),
    ("en", "{GROUP:w:week_group} no {NUMBER:n}", "weeks no 7", "hafta no 7"),
]


def language_pattern_effects(ctx):
    """the patterns of a rule are patterns of the language the rule is registered for: a line of that language spelled like the
    pattern is rewritten; a line using the word of the OTHER language's group is what it is without the rule"""
    for (lang, pat, line, other) in LANG_PATTERNS:
        rule = {"op": "rule_add", "lang": lang, "name": "r1", "kind": "const", "patterns": [pat], "v": 4242}
        ops = [{"op": "reset"}, rule, {"op": "exec", "lang": lang, "text": line}]
        if other:
            ops += [{"op": "exec", "lang": lang, "text": other}, {"op": "reset"}, {"op": "exec", "lang": lang, "text": other}]
        res = C.run_impl(ops + [{"op": "reset"}])
        ctx.count("language-pattern-effects")
        ctx.seen(("lang-pattern", lang, pat), True)
        c = canon(res[2])
        l = res[2]["lines"][0] if "lines" in res[2] and res[2]["lines"] else None
        val = l.get("ok") if l and "ok" in l else None
        if val is None or val.get("t") != "N" or O.f64(val["v"]) != 4242.0:
            ctx.oracle_fail({"class": "effect:language-pattern", "what": f"rule registered for '{lang}' with pattern '{pat}' returning 4242: the {lang} line '{line}' evaluates to {c}",
                             "ops": ops[:3] + [{"op": "reset"}]})
        if other and canon(res[3]) != canon(res[5]):
            ctx.oracle_fail({"class": "effect:language-pattern", "what": f"rule registered for '{lang}' with pattern '{pat}': the {lang} line '{other}' (word of the other language's group) evaluates to "
                                                                    f"{canon(res[3])}, without the rule to {canon(res[5])}", "ops": ops[:2] + [ops[3], {"op": "reset"}]})


def language_histories():
    """the same registrations as histories (model tie: the model holds the patterns tokenised in the rule's language)"""
    out = []
    for lang in ("tr", "en"):
        rules = [{"op": "rule_add", "lang": lang, "name": "l%d" % i, "kind": "const", "patterns": [pat], "v": 4000 + i}
                 for i, (l, pat, _, _) in enumerate(LANG_PATTERNS) if l == lang]
        lines = [x for (l, _, a, b) in LANG_PATTERNS for x in (a, b) if x]
        ex = [{"op": "exec", "lang": lang, "text": t} for t in lines]
        for r in rules:
            out.append([r] + ex + [{"op": "rule_del", "lang": lang, "name": r["name"]}] + ex)
        out.append(rules + ex)
    return out


def mult(code):
    p = code.split()
    if len(p) == 1:
        return Fraction(1)
    c = Fraction(p[2])
    return c if p[1] == "*" else 1 / c


def replay(ctx, data, model_ok):
    for f in data.get("failures", []):
        res = C.run_impl(f["ops"])
        ctx.seen(C.json.dumps(f["ops"]), True)
        ctx.sample({"ops": f["ops"][-3:], "impl": res[-3:]})
        print("replayed:", C.json.dumps(f["ops"][-4:], ensure_ascii=False)[:500], "->", C.json.dumps(res[-4:], ensure_ascii=False)[:500])
    run(ctx, model_ok)
