"""C19 — every configured language is a relabelling of the same calculator."""
import re
from tools import common as C, wire
from tools.gen import lines as L

LEAN_MODULES = ["SCP.C19", "SCP.LexerLang"]
THEOREMS = ["SCP.C19." + t for t in """applyRule_lang tryPats_lang rulePass_lang ruleLoop_lang evalInfos_lang wordless_same parse_kind
constants_complete duration_words_known operator_words months_complete formats_complete rules_subset""".split()] + \
    ["SCP.LexerLang.lexFull_lang", "SCP.LexerLang.lexText_lang"]
RULE = ("word-by-word translation en -> every other configured language (currently tr) of: operator-word arithmetic (every alias word of both languages, lower-case, capitalised and upper-case; of both "
        "languages, chains of 2-5 operands, against the symbolic line too), durations (every keyword spelling, juxtaposed parts, + and -), dates "
        "with every month spelling of both languages in the spellings both languages have (d/m/y, 'd Mon y', 'd Mon'), date +- durations, "
        "today / tomorrow / yesterday; oracle: identical values; printed dates and durations of the translated line use only that language's own "
        "month names (capitalised) and unit words; word-free lines (arithmetic, money literals and arithmetic, percent forms without words, "
        "variables over 3 lines) must give identical values AND outputs under every language; non-trivial = line contains a language word; "
        "distinct = distinct line pairs")
ASSUMPTIONS = ["features for which a language configures no words or rules (tr: conversion words, zones, unix, bases, division word) are not demanded"]
TRUSTED = ["alias / keyword / month lexing is regex code outside the model (exercised); the tables are regenerated and obligations re-decided on every run"]

_T = None


def tables():
    global _T
    if _T is None:
        cfg = C.json.load(open(C.REPO + "/src/json/config.json", encoding="utf-8"))
        T = {}
        for lang, Lg in cfg["languages"].items():
            ops = {}
            for w, v in Lg.get("alias", {}).items():
                m = re.match(r"^\[OPERATOR:(.)\]$", v)
                if m:
                    ops.setdefault(m.group(1), []).append(w)
            consts = {}
            for w, k in Lg["constant_pair"].items():
                consts.setdefault(k, []).append(w)
            months = [[] for _ in range(12)]
            keep_long, keep_short = [""] * 12, [""] * 12
            for w in sorted(Lg["long_months"], key=lambda s: s.encode()):
                months[Lg["long_months"][w] - 1].append(w)
                keep_long[Lg["long_months"][w] - 1] = w
            for w in sorted(Lg["short_months"], key=lambda s: s.encode()):
                months[Lg["short_months"][w] - 1].append(w)
                keep_short[Lg["short_months"][w] - 1] = w
            # a text alias whose replacement is a keyword, operator word or month name is one more spelling of it
            for w, v in Lg.get("alias", {}).items():
                if v.startswith("["):
                    continue
                for k_, ws in consts.items():
                    if v in ws and w not in ws:
                        ws.append(w)
                for ws in months:
                    if v in ws and w not in ws:
                        ws.append(w)
                for ws in ops.values():
                    if v in ws and w not in ws:
                        ws.append(w)
            dur_words = set()
            for f in Lg["format"]["duration"]:
                dur_words |= set(re.sub(r"\{\w+\}", "", f["format"]).split())
            T[lang] = {"ops": ops, "consts": consts, "months": months, "print_months": keep_long + keep_short, "dur_words": dur_words}
        _T = T
    return _T


KIND = {"day": 1, "week": 2, "month": 3, "year": 4, "second": 5, "minute": 6, "hour": 7, "today": 8, "tomorrow": 9, "yesterday": 10}


def cap(w):
    return w[0].upper() + w[1:] if w else w


def recase(rng, w):
    """operator words are matched on the lower-cased text: capitalised and upper-case spellings are spellings too (upper case only
    where lower-casing gives the word back: 'ı' upper-cases to 'I', which lower-cases to 'i')"""
    k = rng.random()
    if k < 0.5:
        return w
    if k < 0.8 or "ı" in w:
        return cap(w)
    return w.upper()


def gen_pair(rng, other):
    """returns (en_line, other_line, kind, extra)"""
    T = tables()
    en, ot = T["en"], T[other]
    k = rng.random()

    def dur(n_parts):
        e, o = [], []
        for _ in range(n_parts):
            n = rng.choice([0, 1, 2, 3, 7, 12, 25, 59, 60, 90, rng.randint(0, 500)])
            kind = rng.choice(["day", "week", "month", "year", "second", "minute", "hour"])
            e.append(f"{n} {rng.choice(en['consts'][KIND[kind]])}")
            o.append(f"{n} {rng.choice(ot['consts'][KIND[kind]])}")
        return " ".join(e), " ".join(o)

    def date():
        y, m, d = rng.randint(1900, 2100), rng.randint(1, 12), rng.randint(1, 28)
        f = rng.random()
        if f < 0.25:
            s = f"{d}/{m}/{y}"
            return s, s
        # month names in lower case, capitalised (as the library prints them) and upper case
        if f < 0.8:
            return f"{d} {recase(rng, rng.choice(en['months'][m-1]))} {y}", f"{d} {recase(rng, rng.choice(ot['months'][m-1]))} {y}"
        return f"{d} {recase(rng, rng.choice(en['months'][m-1]))}", f"{d} {recase(rng, rng.choice(ot['months'][m-1]))}"

    if k < 0.25:
        ops_common = [o for o in "+-*/" if o in en["ops"] and o in ot["ops"]]
        n = rng.randint(2, 5)
        nums = [str(rng.randint(0, 999)) for _ in range(n)]
        e, o, s = nums[0], nums[0], nums[0]
        for x in nums[1:]:
            op = rng.choice(ops_common)
            e += f" {recase(rng, rng.choice(en['ops'][op]))} {x}"
            o += f" {recase(rng, rng.choice(ot['ops'][op]))} {x}"
            s += f" {op} {x}"
        return e, o, "opwords", s
    if k < 0.5:
        e, o = dur(rng.randint(1, 4))
        if rng.random() < 0.4:
            e2, o2 = dur(rng.randint(1, 2))
            op = rng.choice("+-")
            e, o = f"{e} {op} {e2}", f"{o} {op} {o2}"
        return e, o, "duration", None
    if k < 0.7:
        e, o = date()
        return e, o, "date", None
    if k < 0.9:
        if rng.random() < 0.6:
            e, o = date()
        else:
            c = rng.choice(["today", "tomorrow", "yesterday"])
            e, o = rng.choice(en["consts"][KIND[c]]), rng.choice(ot["consts"][KIND[c]])
        n = rng.choice([0, 1, 2, 5, 7, 13, 20, 29])
        kind = rng.choice(["day", "day", "week", "month", "year"])
        if kind == "week":
            n = n % 5
        op = rng.choice("+-")
        return (f"{e} {op} {n} {rng.choice(en['consts'][KIND[kind]])}", f"{o} {op} {n} {rng.choice(ot['consts'][KIND[kind]])}", "datearith", None)
    c = rng.choice(["today", "tomorrow", "yesterday"])
    return rng.choice(en["consts"][KIND[c]]), rng.choice(ot["consts"][KIND[c]]), "const", None


def wordfree(rng):
    k = rng.random()
    if k < 0.4:
        return L.arith(rng)
    if k < 0.6:
        a = rng.choice(["$", "€", "£"]) + L.num(rng)
        return a + rng.choice(["", " * 2", " + " + rng.choice(["$", "€"]) + L.num(rng), " / 4", " - " + L.num(rng) + "%"])
    if k < 0.75:
        return rng.choice([L.num(rng) + " + " + L.num(rng) + "%", L.num(rng) + " - " + L.num(rng) + "%", L.num(rng) + "% " + L.num(rng), L.num(rng) + "%"])
    if k < 0.85:
        return f"{rng.randint(0, 23)}:{rng.randint(0, 59):02d}"
    n1, n2 = rng.sample(["x", "y", "zed", "my var", "q1"], 2)
    return f"{n1} = {L.arith(rng)}\n{n2} = {n1} * 2 + {L.num(rng)}\n{n2} - {n1}"


def vals(r):
    if "lines" not in r:
        return None
    return [None if l is None else ("err" if "err" in l else l.get("ok")) for l in r["lines"]]


def outs(r):
    return [None if (l is None or "err" in l) else l.get("out") for l in r.get("lines", [])]


def run(ctx, model_ok):
    rng = ctx.rng
    T = tables()
    others = [l for l in T if l != "en"]
    pairs = []
    for _ in range(ctx.n(3000, 100000)):
        o = rng.choice(others)
        e, t, kind, extra = gen_pair(rng, o)
        pairs.append((o, e, t, kind, extra))
    free = [wordfree(rng) for _ in range(ctx.n(1200, 30000))]
    ops = []
    for (o, e, t, kind, extra) in pairs:
        ops.append({"op": "exec", "lang": "en", "text": e})
        ops.append({"op": "exec", "lang": o, "text": t})
        ops.append({"op": "exec", "lang": "en", "text": extra if extra else "0"})
    for t in free:
        for l in ["en"] + others:
            ops.append({"op": "exec", "lang": l, "text": t})
    res = C.run_impl(ops)
    i = 0
    for (o, e, t, kind, extra) in pairs:
        re_, rt, rs = res[i], res[i + 1], res[i + 2]
        i += 3
        ctx.seen((o, e, t), True)
        ctx.count("kind:" + kind)
        ve, vt = vals(re_), vals(rt)
        rops = [{"op": "exec", "lang": "en", "text": e}, {"op": "exec", "lang": o, "text": t}]
        if ve is None or vt is None or ve[0] in (None, "err"):
            if ve is not None and ve[0] in (None, "err") and kind != "datearith":
                ctx.oracle_fail({"class": "en-not-evaluable:" + kind, "what": f"the English line does not evaluate: {ve}", "ops": rops})
            ctx.count("en-not-evaluable")
            continue
        if ve != vt:
            ctx.oracle_fail({"class": "parity:" + kind, "what": f"en gives {ve}, {o} gives {vt}", "ops": rops})
            continue
        if extra and vals(rs) != ve:
            ctx.oracle_fail({"class": "opwords-vs-symbols", "what": f"'{e}' gives {ve}, '{extra}' gives {vals(rs)}", "ops": rops + [{"op": "exec", "lang": "en", "text": extra}]})
        # printing in the other language uses its own words
        out = outs(rt)[0]
        if out and kind in ("duration", "date", "datearith", "const"):
            words = [w for w in re.findall(r"[^\W\d_]+", out)]
            v = vt[0]
            if v and v.get("t") == "Du":
                bad = [w for w in words if w not in T[o]["dur_words"]]
                if bad:
                    ctx.oracle_fail({"class": "print:duration-words", "what": f"'{out}' contains {bad}, not unit words of {o}", "ops": rops})
            elif v and v.get("t") == "D":
                allowed = {cap(w) for w in T[o]["print_months"]}
                bad = [w for w in words if w not in allowed]
                want = {cap(w) for w in T[o]["months"][v["ymd"][1] - 1]}
                if bad or not any(w in want for w in words):
                    ctx.oracle_fail({"class": "print:month-names", "what": f"'{out}' does not show month {v['ymd'][1]} with a month name of {o}", "ops": rops})
        if len(ctx.samples) < 10 and rng.random() < 0.004:
            ctx.sample({"en": e, o: t, "value": ve, "out_en": outs(re_), "out_" + o: outs(rt)})
    nl = 1 + len(others)
    for t in free:
        rr = res[i:i + nl]
        i += nl
        ctx.seen(("free", t), False)
        ctx.count("kind:wordfree")
        base_v, base_o = vals(rr[0]), outs(rr[0])
        for l, r in zip(others, rr[1:]):
            if vals(r) != base_v or outs(r) != base_o:
                ctx.oracle_fail({"class": "wordfree", "what": f"a line without words gives {base_v} / {base_o} in en and {vals(r)} / {outs(r)} in {l}",
                                 "ops": [{"op": "exec", "lang": "en", "text": t}, {"op": "exec", "lang": l, "text": t}]})
    if model_ok:
        co = wire.Corr(ctx, compare=("kind", "value", "out"))
        sub = pairs[:ctx.n(1200, 15000)]
        co.run([{"lang": o, "text": t} for (o, e, t, k, x) in sub] + [{"lang": rng.choice(others), "text": t} for t in free[:ctx.n(400, 5000)]])
        ctx.dist.update({"corr:" + k: v for k, v in co.stats.items()})


def replay(ctx, data, model_ok):
    for f in data.get("failures", []):
        res = C.run_impl(f["ops"])
        ctx.seen(C.json.dumps(f["ops"]), True)
        ctx.sample({"ops": f["ops"], "impl": [vals(r) for r in res]})
        print("replayed:", C.json.dumps(f["ops"], ensure_ascii=False)[:400], "->", C.json.dumps([vals(r) for r in res], ensure_ascii=False)[:400])
    run(ctx, model_ok)
