#!/usr/bin/env python3
"""Regression of the machinery against every archived seeded change: apply seeded/<id>/patch.diff to /repo, run the quick check of
the property (or properties) recorded as detecting it, undo, and write seeded/REGRESSION.md.  A seed whose patch no longer applies
to the current /repo (the code around it was repaired since) is listed as such.  Never run while another job uses /repo."""
import json, os, subprocess, sys, time

ROOT = os.path.dirname(os.path.dirname(os.path.abspath(__file__)))
sd = os.path.join(ROOT, "seeded")
only = set(sys.argv[1:])
rows = []
for k in sorted(os.listdir(sd)):
    d = os.path.join(sd, k)
    patch = os.path.join(d, "patch.diff")
    if not os.path.exists(patch) or (only and k not in only):
        continue
    meta = json.load(open(os.path.join(d, "meta.json"), encoding="utf-8"))
    props = [p.strip() for p in (meta.get("detected_by") or meta.get("property")).replace("(", ",").split(",") if p.strip().startswith("C") and len(p.strip()) >= 3]
    props = [p[:3] for p in props][:1] or [meta["property"]]
    st = subprocess.run(["git", "-C", "/repo", "status", "--short"], capture_output=True, text=True).stdout.strip()
    assert st == "", "repo not clean: " + st
    r = subprocess.run(["git", "-C", "/repo", "apply", patch], capture_output=True, text=True)
    if r.returncode != 0:
        # the code around the patch was repaired since: try a three-way application against the blobs the patch names
        r = subprocess.run(["git", "-C", "/repo", "apply", "--3way", patch], capture_output=True, text=True)
        conflict = subprocess.run(["git", "-C", "/repo", "diff", "--name-only", "--diff-filter=U"], capture_output=True, text=True).stdout.strip()
        if r.returncode != 0 or conflict:
            subprocess.run(["git", "-C", "/repo", "reset", "-q", "--hard", "HEAD"])
            rows.append((k, props[0], "patch does not apply to the current tree", ""))
            print(rows[-1], flush=True)
            continue
    t0 = time.time()
    try:
        c = subprocess.run(["./check", props[0], "--tier", "quick"], cwd=ROOT, capture_output=True, text=True)
        last = [l for l in c.stdout.strip().split("\n") if l.startswith("VIOLATION") or l.startswith(props[0] + " tier")]
        rows.append((k, props[0], "caught" if c.returncode == 1 and any(l.startswith("VIOLATION") for l in last) else "NOT CAUGHT (rc=%d)" % c.returncode,
                     (last[-1] if last else "")[:160]))
    finally:
        subprocess.run(["git", "-C", "/repo", "reset", "-q", "--hard", "HEAD"])
    print(rows[-1], f"{time.time() - t0:.0f}s", flush=True)
if only:
    print("partial run: REGRESSION.md left as it is")
    sys.exit(0)
with open(os.path.join(sd, "REGRESSION.md"), "w", encoding="utf-8") as f:
    f.write("# Archived seeded changes against the current checks\n\n")
    f.write(f"/repo at {subprocess.run(['git', '-C', '/repo', 'log', '--format=%h', '-1'], capture_output=True, text=True).stdout.strip()}; "
            f"{sum(1 for r in rows if r[2] == 'caught')} caught, {sum(1 for r in rows if r[2].startswith('NOT'))} not caught, "
            f"{sum(1 for r in rows if r[2].startswith('patch'))} no longer apply\n\n| seed | check | result | summary line |\n|---|---|---|---|\n")
    for r in rows:
        f.write("| " + " | ".join(r) + " |\n")
print("done")
