#!/usr/bin/env python3
"""apply each seeded patch to /repo, run the property's quick check, undo; print a table.
usage: run_seeds.py <out_dir> <PROP> [more PROPs to also run]"""
import json, os, subprocess, sys
out_dir, props = sys.argv[1], sys.argv[2:]
rows = []
for k in sorted(os.listdir(out_dir)):
    d = os.path.join(out_dir, k)
    patch = os.path.join(d, "patch.diff")
    if not os.path.exists(patch):
        continue
    st = subprocess.run(["git", "-C", "/repo", "status", "--short"], capture_output=True, text=True).stdout.strip()
    assert st == "", "repo not clean: " + st
    r = subprocess.run(["git", "-C", "/repo", "apply", patch], capture_output=True, text=True)
    if r.returncode != 0:
        rows.append((k, "PATCH DOES NOT APPLY", r.stderr[:200]))
        continue
    try:
        for p in props:
            c = subprocess.run(["./check", p], cwd="/verif", capture_output=True, text=True)
            last = [l for l in c.stdout.strip().split("\n") if l.startswith("VIOLATION") or l.startswith(p)]
            rows.append((k, p, "rc=%d" % c.returncode, " | ".join(last)[:400]))
    finally:
        subprocess.run(["git", "-C", "/repo", "checkout", "--", "."])
for r in rows:
    print(*r)
