#!/usr/bin/env python3
"""Validate a seeded mutation produced by a sub-agent and run the checks against it.

usage: validate_seed.py <worktree> <seed_dir> <PROP> [more PROPs]

1. in the scratch worktree: apply patch.diff, run the repository's test suite (must be 142 passed +
   the baseline failure date_tests), run the demonstration (must FAIL), revert, run the
   demonstration again (must PASS);
2. apply the patch to /repo, run `./check PROP --tier quick` for every PROP, undo.
Prints one JSON line with the outcome."""
import json
import os
import shutil
import subprocess
import sys

wt, seed, props = sys.argv[1], sys.argv[2], sys.argv[3:]
env = dict(os.environ, CARGO_NET_OFFLINE="true")


def sh(cmd, cwd):
    p = subprocess.run(cmd, cwd=cwd, env=env, stdout=subprocess.PIPE, stderr=subprocess.STDOUT, text=True)
    return p.returncode, p.stdout


out = {"seed": seed}
patch = os.path.join(seed, "patch.diff")
demo = os.path.join(seed, "demo.rs")
sh(["git", "checkout", "--", "."], wt)
demo_dst = os.path.join(wt, "tests", "seed_demo.rs")
os.makedirs(os.path.dirname(demo_dst), exist_ok=True)
if os.path.exists(demo_dst):
    os.remove(demo_dst)
rc, o = sh(["git", "apply", patch], wt)
out["applies"] = rc == 0
if rc == 0:
    rc, o = sh(["cargo", "test", "--workspace", "--no-fail-fast", "--offline"], wt)
    res = [l for l in o.split("\n") if l.startswith("test result")]
    failed = [l for l in o.split("\n") if l.startswith("test ") and l.endswith("FAILED")]
    out["suite"] = res[0] if res else o[-300:]
    out["suite_ok"] = bool(res) and "142 passed; 1 failed" in res[0] and failed == ["test tests::general_test::date_tests ... FAILED"]
    shutil.copy(demo, demo_dst)
    rc, o = sh(["cargo", "test", "--offline", "--test", "seed_demo"], wt)
    out["demo_fails_with_patch"] = rc != 0 and "error[" not in o and "could not compile" not in o
    out["demo_with_patch_tail"] = o[-400:] if not out["demo_fails_with_patch"] else ""
    sh(["git", "checkout", "--", "."], wt)
    rc, o = sh(["cargo", "test", "--offline", "--test", "seed_demo"], wt)
    out["demo_passes_without_patch"] = rc == 0
    if rc != 0:
        out["demo_without_patch_tail"] = o[-400:]
    os.remove(demo_dst)
# checks against /repo
st = subprocess.run(["git", "-C", "/repo", "status", "--short"], capture_output=True, text=True).stdout.strip()
assert st == "", "repo not clean: " + st
rc, o = sh(["git", "-C", "/repo", "apply", patch], "/repo")
out["applies_to_repo"] = rc == 0
out["checks"] = {}
if rc == 0:
    try:
        for p in props:
            c = subprocess.run(["./check", p, "--tier", "quick"], cwd="/verif", capture_output=True, text=True)
            last = [l for l in c.stdout.strip().split("\n") if l.startswith("VIOLATION") or l.startswith(p + " tier")]
            out["checks"][p] = {"rc": c.returncode, "lines": [l[:300] for l in last]}
    finally:
        subprocess.run(["git", "-C", "/repo", "checkout", "--", "."])
print(json.dumps(out, ensure_ascii=False))
