"""Wire format shared with lean/Driver.lean: token / token-info encoding and the line-level
correspondence (model `evalInfos` on the implementation's own lexed tokens vs the
implementation's result)."""
import json
from tools import common as C


def hx(s):
    return s.encode("utf-8").hex()


NT = {"Decimal": "d", "Octal": "o", "Hexadecimal": "h", "Binary": "b", "Raw": "r"}


def enc_tok(t):
    """JSON token (harness) -> wire string; None if the kind is outside the model"""
    k = t["t"]
    if k == "N":
        return f"N:{t['v']}:{NT[t['nt']]}"
    if k == "P":
        return f"P:{t['v']}"
    if k == "M":
        return f"M:{t['v']}:{t['cur']}"
    if k == "Ti":
        if t.get("nanos"):
            return None
        return f"Ti:{t['secs']}:{hx(t['tz'][0])}:{t['tz'][1]}"
    if k == "D":
        return f"D:{t['ymd'][0]}:{t['ymd'][1]}:{t['ymd'][2]}:{hx(t['tz'][0])}:{t['tz'][1]}"
    if k == "DT":
        if t.get("nanos"):
            return None
        return f"DT:{t['secs']}:{hx(t['tz'][0])}:{t['tz'][1]}"
    if k == "Du":
        if t.get("nanos"):
            return None
        return f"Du:{t['secs']}"
    if k == "DY":
        return f"DY:{t['v']}:{hx(t['group'])}:{t['index']}"
    if k == "T":
        return f"T:{hx(t['s'])}"
    if k == "O":
        return f"O:{ord(t['c'])}"
    if k == "V":
        return f"V:{hx(t['name'])}"
    if k == "Mo":
        return f"Mo:{t['m']}"
    if k == "TZ":
        return f"TZ:{hx(t['name'])}:{t['off']}"
    if k == "F":
        f = t["f"]
        if f in ("TEXT", "DYNAMIC_TYPE"):
            extra = "-" if t.get("extra") is None else hx(t["extra"])
        elif f == "GROUP":
            extra = ".".join(hx(x) for x in t["items"]) or "-"
        elif f == "TYPE_GROUP":
            extra = ".".join(hx(x) for x in t["types"]) or "-"
        else:
            extra = "-"
        return f"F:{f}:{hx(t['name'])}:{extra}"
    return None


def enc_pattern(toks):
    """lexed pattern (harness `lex`) -> request encoding of one pattern; None if unsupported"""
    parts = []
    for ti in toks:
        tok = "-" if ti["tok"] is None else enc_tok(ti["tok"])
        if tok is None:
            return None
        parts.append(f"{ti['s']},{ti['e']},1,{hx(ti['text'])},{tok}")
    return " ".join(parts)


def enc_info_in(ti):
    """lexed token info (harness `lex`) -> request encoding (with original text)"""
    tok = "-" if ti["tok"] is None else enc_tok(ti["tok"])
    if tok is None or tok.startswith("F"):
        return None
    return f"{ti['s']},{ti['e']},1,{hx(ti['text'])},{tok}"


def enc_info_lex(ti):
    """lexed token info (harness `lex`) -> the encoding the driver's `lextext` prints (field tokens included)"""
    tok = "-" if ti["tok"] is None else enc_tok(ti["tok"])
    if tok is None:
        return None
    return f"{ti['s']},{ti['e']},1,{hx(ti['text'])},{tok}"


def enc_info_out(ti):
    """calculated token info (harness exec detail) -> the encoding the driver prints"""
    tok = "-" if ti["tok"] is None else enc_tok(ti["tok"])
    if tok is None:
        return None
    return f"{ti['s']},{ti['e']},{'1' if ti['active'] else '0'},{tok}"


def split_lines(text):
    return text.replace("\r\n", "\n").split("\n")


def impl_line_canon(l, with_tokens=True):
    """implementation slot -> (kind, value, out, calc, raw) in wire terms"""
    if l is None:
        return ("none",)
    calc = raw = None
    if with_tokens and "calc" in l:
        cc = [enc_info_out(t) for t in l["calc"]]
        calc = None if any(c is None for c in cc) else " ".join(cc)
        rr = [enc_tok(t) for t in l["raw"]]
        raw = None if any(r is None for r in rr) else " ".join(rr)
    if "err" in l:
        return ("err", None, None, calc, raw)
    v = l.get("ok")
    if v is None:
        return ("ok", "-", "", calc, raw)
    return ("ok", enc_tok(v), l.get("out"), calc, raw)


def model_line_canon(ans):
    f = ans.split("\t")
    if f[0] in ("none", "unsupported"):
        return (f[0],)
    if f[0] == "err":
        return ("err", None, None, f[1] if len(f) > 1 else "", f[2] if len(f) > 2 else "")
    val = f[1]
    out = bytes.fromhex(f[2]).decode("utf-8", "replace") if len(f) > 2 and f[2] else ""
    return ("ok", val, out, f[3] if len(f) > 3 else "", f[4] if len(f) > 4 else "")


def cfg_to_model(op, tzres=None):
    """harness config op -> driver requests"""
    out = []
    if op["op"] == "cfg":
        if "dec" in op or "thou" in op:
            out.append(("sep", op.get("dec"), op.get("thou")))
        if "num" in op:
            out.append(f"cfg_num\t{op['num'][0]}\t{int(op['num'][1])}\t{int(op['num'][2])}")
        if "pct" in op:
            out.append(f"cfg_pct\t{op['pct'][0]}\t{int(op['pct'][1])}\t{int(op['pct'][2])}")
        if "money" in op:
            out.append(f"cfg_money\t{int(op['money'][0])}\t{int(op['money'][1])}")
    return out


class Corr:
    """Runs texts through implementation and model and compares per line.
    compare: set of observables among {'kind','value','out','calc','raw'}"""

    def __init__(self, ctx, compare=("kind", "value", "out", "calc", "raw")):
        self.ctx = ctx
        self.compare = compare
        self.stats = {"lines": 0, "agree": 0, "unsupported": 0, "skipped_abnormal": 0, "lex_lines": 0, "lex_agree": 0, "lex_unsupported": 0}

    def run(self, cases):
        """cases: list of dict(cfg=[harness cfg ops], lang, text).  cfg ops are applied before
        the text and the default configuration restored afterwards.
        Returns list of per-case lists of (impl_canon, model_canon_or_None)."""
        DEFAULT = [{"op": "cfg", "dec": ",", "thou": ".", "num": [2, True, True], "pct": [2, True, True], "money": [False, True]},
                   {"op": "tz", "v": "UTC"}]
        ops = [{"op": "now"}]
        layout = []
        lines_of = []
        for c in cases:
            cfg = c.get("cfg", [])
            start = len(ops)
            ops.extend(cfg)
            ops.append({"op": "get_tz"})
            ops.append({"op": "exec", "lang": c["lang"], "text": c["text"], "detail": True})
            lines = split_lines(c["text"])
            lines_of.append(lines)
            for ln in lines:
                ops.append({"op": "lex", "lang": c["lang"], "text": ln})
            if c.get("reset_after"):
                ops.append({"op": "reset"})
            elif cfg:
                ops.extend(DEFAULT)
            layout.append((start, len(cfg), len(lines)))
        ops.append({"op": "now"})
        res = C.run_impl(ops)
        now0, now1 = res[0], res[-1]
        if now0.get("ymd") != now1.get("ymd"):
            # the UTC date changed during the batch: run again
            res = C.run_impl(ops)
            now0 = res[0]
        req = [f"now\t{now0['secs']}", "reset"]
        req_index = []   # (case, line) per 'line' request, or None
        dec, thou = ",", "."
        for ci, (c, (start, ncfg, nlines)) in enumerate(zip(cases, layout)):
            cfg = c.get("cfg", [])
            if cfg:
                dec, thou = ",", "."
                for op in cfg:
                    if op["op"] == "cfg":
                        if "dec" in op:
                            dec = op["dec"]
                        if "thou" in op:
                            thou = op["thou"]
                        for m in cfg_to_model(op):
                            if not isinstance(m, tuple):
                                req.append(m)
                                req_index.append(None)
                    elif op["op"] == "rate" and op.get("code"):
                        import struct
                        b = op["v"][5:] if isinstance(op["v"], str) and op["v"].startswith("bits:") else struct.pack(">d", float(op["v"])).hex()
                        req.append(f"rate\t{op['code']}\t{b}")
                        req_index.append(None)
                req.append(f"cfg_sep\t{hx(dec)}\t{hx(thou)}")
                req_index.append(None)
                tz = res[start + ncfg].get("tz", ["UTC", 0])
                req.append(f"cfg_tz\t{hx(tz[0])}\t{tz[1]}")
                req_index.append(None)
            req.append("newvars")
            req_index.append(None)
            ex = res[start + ncfg + 1]
            for li in range(nlines):
                lx = res[start + ncfg + 2 + li]
                enc = None
                if "toks" in lx:
                    parts = [enc_info_in(t) for t in lx["toks"]]
                    if all(p is not None for p in parts):
                        enc = " ".join(parts)
                # the model's own tokenizers on the raw text of the line (compared with the implementation's tokens)
                req.append("lextext\t" + c["lang"] + "\t" + hx(lines_of[ci][li]))
                req_index.append(("lex", ci, li))
                if enc is None:
                    req.append("line\t" + c["lang"] + "\tunsupported,")
                else:
                    req.append("line\t" + c["lang"] + "\t" + enc)
                req_index.append((ci, li))
            if cfg:
                req.append("reset")
                req_index.append(None)
        ans = C.run_model(req)[2:]
        model = {}
        lexm = {}
        for idx, a in zip(req_index, ans):
            if idx is None:
                continue
            if idx[0] == "lex":
                lexm[idx[1:]] = a
            else:
                model[idx] = model_line_canon(a)
                # hypothesis of SCP.VarInvariant on this line (the name in front of '=' is admissible), evaluated by the model
                if a.endswith("LOK:1"):
                    self.stats["name_hypothesis_holds"] = self.stats.get("name_hypothesis_holds", 0) + 1
                elif a.endswith("LOK:0"):
                    self.stats["name_hypothesis_fails"] = self.stats.get("name_hypothesis_fails", 0) + 1
        # ---- lexer tie: model tokens of the raw text vs the implementation's tokens ------------------
        for ci, (c, (start, ncfg, nlines)) in enumerate(zip(cases, layout)):
            for li in range(nlines):
                lx = res[start + ncfg + 2 + li]
                a = lexm.get((ci, li))
                if a is None or "toks" not in lx:
                    continue
                self.stats["lex_lines"] += 1
                parts = [enc_info_lex(t) for t in lx["toks"]]
                if a == "unsupported" or any(p is None for p in parts) or not a.startswith("toks"):
                    self.stats["lex_unsupported"] += 1
                    continue
                want = " ".join(parts)
                got = a[5:] if a.startswith("toks\t") else ""
                if want != got:
                    self.ctx.disagree({"lang": c["lang"], "cfg": c.get("cfg", []), "text": lines_of[ci][li], "observable": "lexer tokens",
                                       "impl": want, "model": got})
                else:
                    self.stats["lex_agree"] += 1
                    self.ctx.traces_validated += 1
        out = []
        for ci, (c, (start, ncfg, nlines)) in enumerate(zip(cases, layout)):
            ex = res[start + ncfg + 1]
            rows = []
            if "lines" not in ex:
                self.stats["skipped_abnormal"] += 1
                out.append(None)
                continue
            for li in range(nlines):
                il = impl_line_canon(ex["lines"][li]) if li < len(ex["lines"]) else ("missing",)
                ml = model.get((ci, li))
                rows.append((il, ml))
                self.stats["lines"] += 1
                if ml is None or ml[0] == "unsupported":
                    self.stats["unsupported"] += 1
                    # once a line is outside the model the session environments may diverge
                    break
                diff = self.diff(il, ml)
                if diff:
                    self.ctx.disagree({"lang": c["lang"], "cfg": c.get("cfg", []), "text": c["text"], "line": li,
                                       "observable": diff, "impl": il, "model": ml})
                    break
                self.stats["agree"] += 1
                self.ctx.traces_validated += 1
            out.append(rows)
        return out

    def diff(self, il, ml):
        if il[0] != ml[0]:
            return "kind"
        if il[0] != "ok" and il[0] != "err":
            return None
        if il[0] == "ok":
            if "value" in self.compare and il[1] is not None and il[1] != ml[1]:
                return "value"
            if "out" in self.compare and il[1] is not None and il[2] != ml[2]:
                return "out"
        if "calc" in self.compare and il[3] is not None and il[3] != ml[3]:
            return "calc"
        if "raw" in self.compare and il[4] is not None and il[4] != ml[4]:
            return "raw"
        return None


def lex_tie(ctx, cases, label="lex-tie"):
    """cases: list of (cfg ops, lang, line text).  The model's own tokenizers (`lexText`: language, regex and alias
    tokenizers over the regenerated regular expressions) against the implementation's `Tokinizer::token_infos`,
    token info for token info (byte span, original text, token)."""
    DEFAULT = [{"op": "cfg", "dec": ",", "thou": "."}, {"op": "tz", "v": "UTC"}]
    ops = [{"op": "now"}]
    pos = []
    for cfg, lang, t in cases:
        ops.extend(cfg)
        ops.append({"op": "get_tz"})
        pos.append(len(ops))
        ops.append({"op": "lex", "lang": lang, "text": t})
        if cfg:
            ops.extend(DEFAULT)
    ops.append({"op": "now"})
    res = C.run_impl(ops)
    if res[0].get("ymd") != res[-1].get("ymd"):
        res = C.run_impl(ops)
    req = [f"now\t{res[0]['secs']}", "reset"]
    idx = []
    for (cfg, lang, t), p in zip(cases, pos):
        dec, thou = ",", "."
        for op in cfg:
            if op["op"] == "cfg":
                dec, thou = op.get("dec", dec), op.get("thou", thou)
        tz = res[p - 1].get("tz", ["UTC", 0])
        req.append(f"cfg_sep\t{hx(dec)}\t{hx(thou)}")
        idx.append(None)
        req.append(f"cfg_tz\t{hx(tz[0])}\t{tz[1]}")
        idx.append(None)
        req.append("lextext\t" + lang + "\t" + hx(t))
        idx.append(len(idx))
    ans = C.run_model(req)[2:]
    k = 0
    for a, i in zip(ans, idx):
        if i is None:
            continue
        (cfg, lang, t), p = cases[k], pos[k]
        k += 1
        lx = res[p]
        ctx.count(label + ":lines")
        if "toks" not in lx:
            ctx.count(label + ":impl-abnormal")
            continue
        parts = [enc_info_lex(x) for x in lx["toks"]]
        if a == "unsupported" or any(q is None for q in parts) or not a.startswith("toks"):
            ctx.count(label + ":outside-model")
            continue
        want, got = " ".join(parts), (a[5:] if a.startswith("toks\t") else "")
        if want != got:
            ctx.disagree({"lang": lang, "cfg": cfg, "text": t, "observable": "lexer tokens", "impl": want, "model": got})
        else:
            ctx.count(label + ":agree")
            ctx.traces_validated += 1
